"""E1 - program model: modules, symbol tables, classes, functions, name resolution.

The model is built from source text only.  Sources come from the repository working tree (``repo``)
plus an optional in-memory ``overlay`` {repo-relative path: source} used by the rule self-test to
analyse edited variants without writing them anywhere.
"""
from __future__ import annotations

import ast
import glob
import hashlib
import os
from dataclasses import dataclass, field
from typing import Dict, Iterator, List, Optional, Tuple


class AnalysisError(Exception):
    """The analyser cannot give a verdict (missing anchor, unparsable file, unknown folded value).

    Never a property verdict: the driver prints ANALYSIS-ERROR and exits 2."""


def find_resolva_dir() -> str:
    cands = sorted(glob.glob("/venv/lib/python3*/site-packages/resolva"))
    if not cands:
        raise AnalysisError("pinned dependency 'resolva' not found under /venv site-packages")
    return cands[-1]


# --------------------------------------------------------------------------------------------------
@dataclass
class Binding:
    name: str
    kind: str  # 'module' | 'from' | 'func' | 'class' | 'assign'
    index: int  # position among the module's top-level statements (flattened)
    node: ast.AST
    target_module: Optional[str] = None  # for 'module' / 'from'
    target_name: Optional[str] = None  # for 'from'
    value: Optional[ast.AST] = None  # for 'assign'


@dataclass
class FunctionInfo:
    qualname: str  # module-qualified, nested functions use '.<locals>.'
    name: str
    module: "Module"
    node: ast.FunctionDef
    cls: Optional["ClassInfo"] = None
    parent: Optional["FunctionInfo"] = None
    decorators: List[str] = field(default_factory=list)  # resolved dotted names (best effort)
    decorator_nodes: List[ast.AST] = field(default_factory=list)
    is_property: bool = False
    is_static: bool = False
    nested: Dict[str, "FunctionInfo"] = field(default_factory=dict)

    @property
    def params(self) -> List[str]:
        a = self.node.args
        return [x.arg for x in a.posonlyargs + a.args] + ([a.vararg.arg] if a.vararg else []) + [
            x.arg for x in a.kwonlyargs
        ] + ([a.kwarg.arg] if a.kwarg else [])

    @property
    def short(self) -> str:
        """qualname without the module prefix"""
        return self.qualname[len(self.module.name) + 1:]

    @property
    def relpath(self) -> str:
        return self.module.relpath

    def __hash__(self):
        return hash(self.qualname)

    def __eq__(self, other):
        return isinstance(other, FunctionInfo) and other.qualname == self.qualname

    def __repr__(self):
        return f"<fn {self.qualname}>"


@dataclass
class ClassInfo:
    qualname: str
    name: str
    module: "Module"
    node: ast.ClassDef
    base_names: List[str] = field(default_factory=list)  # resolved qualnames or external dotted
    methods: Dict[str, FunctionInfo] = field(default_factory=dict)
    attrs: Dict[str, ast.AST] = field(default_factory=dict)  # class-level assignments

    def __hash__(self):
        return hash(self.qualname)

    def __eq__(self, other):
        return isinstance(other, ClassInfo) and other.qualname == self.qualname

    def __repr__(self):
        return f"<class {self.qualname}>"


@dataclass
class Module:
    name: str
    path: str
    relpath: str
    source: str
    tree: ast.Module
    kind: str  # 'library' | 'config' | 'plugin' | 'dep'
    bindings: Dict[str, List[Binding]] = field(default_factory=dict)
    stars: List[Tuple[int, str]] = field(default_factory=list)  # (index, module) for 'from m import *'
    toplevel: List[ast.stmt] = field(default_factory=list)  # flattened module-level statements
    functions: Dict[str, FunctionInfo] = field(default_factory=dict)  # by short qualname
    classes: Dict[str, ClassInfo] = field(default_factory=dict)
    loader: Optional[Tuple[int, str]] = None  # (index of the copy loop, target module) for conf loaders
    static_all: Optional[List[str]] = None

    @property
    def lines(self) -> List[str]:
        return self.source.splitlines()

    def segment(self, node: ast.AST) -> str:
        return ast.get_source_segment(self.source, node) or ""


@dataclass
class Resolved:
    kind: str  # 'module' 'func' 'class' 'value' 'external' 'unknown'
    module: Optional[Module] = None
    func: Optional[FunctionInfo] = None
    cls: Optional[ClassInfo] = None
    name: Optional[str] = None  # dotted external name / value name
    binding: Optional[Binding] = None


# --------------------------------------------------------------------------------------------------
def _is_main_guard(node: ast.stmt) -> bool:
    if not isinstance(node, ast.If):
        return False
    t = node.test
    return (
        isinstance(t, ast.Compare)
        and isinstance(t.left, ast.Name)
        and t.left.id == "__name__"
        and len(t.comparators) == 1
        and isinstance(t.comparators[0], ast.Constant)
        and t.comparators[0].value == "__main__"
    )


def flatten_toplevel(body: List[ast.stmt]) -> List[ast.stmt]:
    """Module-level statements in execution order, descending into try/if/with blocks (but not into
    ``if __name__ == '__main__'`` nor into except handlers, which are the failure paths)."""
    out: List[ast.stmt] = []
    for st in body:
        if _is_main_guard(st):
            continue
        if isinstance(st, ast.Try):
            out.extend(flatten_toplevel(st.body))
            out.extend(flatten_toplevel(st.orelse))
            out.extend(flatten_toplevel(st.finalbody))
        elif isinstance(st, ast.If):
            out.append(st)  # keep the test visible
            out.extend(flatten_toplevel(st.body))
            out.extend(flatten_toplevel(st.orelse))
        elif isinstance(st, (ast.With,)):
            out.extend(flatten_toplevel(st.body))
        elif isinstance(st, ast.For):
            out.append(st)
        else:
            out.append(st)
    return out


class Program:
    def __init__(self, repo: str = "/repo", overlay: Optional[Dict[str, str]] = None, trees: Optional[Dict[str, ast.Module]] = None):
        self.repo = os.path.abspath(repo)
        self.overlay = dict(overlay or {})
        self.trees = dict(trees or {})  # relpath -> already parsed (normalised) module tree
        self.modules: Dict[str, Module] = {}
        self.functions: Dict[str, FunctionInfo] = {}
        self.classes: Dict[str, ClassInfo] = {}
        self.by_relpath: Dict[str, Module] = {}
        self._resolve_cache: Dict[Tuple[str, str], Resolved] = {}
        self._load()
        self._index()

    # ------------------------------------------------------------------ loading
    def _discover(self) -> List[Tuple[str, str, str, str]]:
        """-> (module name, absolute path, relpath, kind)"""
        found = []
        r = self.repo

        def walk(top, prefix_strip, kind, exclude=()):
            for dirpath, dirnames, filenames in os.walk(os.path.join(r, top)):
                dirnames[:] = sorted(d for d in dirnames if d not in ("__pycache__",) and not d.startswith("."))
                rel_dir = os.path.relpath(dirpath, r)
                if any(rel_dir == e or rel_dir.startswith(e + os.sep) for e in exclude):
                    dirnames[:] = []
                    continue
                for fn in sorted(filenames):
                    if not fn.endswith(".py"):
                        continue
                    rel = os.path.normpath(os.path.join(rel_dir, fn))
                    mod_rel = os.path.relpath(os.path.join(dirpath, fn), os.path.join(r, prefix_strip))
                    parts = mod_rel[:-3].split(os.sep)
                    if parts[-1] == "__init__":
                        parts = parts[:-1]
                    if not parts:
                        continue
                    found.append((".".join(parts), os.path.join(dirpath, fn), rel, kind))

        walk("spil", "", "library", exclude=("spil/tests",))
        walk("spil_plugins", "", "plugin")
        # the demo configuration directory is put on sys.path by spil.conf: its modules are top-level
        conf_dir = os.path.join(r, "spil_hamlet_conf")
        for fn in sorted(os.listdir(conf_dir)) if os.path.isdir(conf_dir) else []:
            if fn.endswith(".py") and fn != "__init__.py":
                found.append((fn[:-3], os.path.join(conf_dir, fn), os.path.join("spil_hamlet_conf", fn), "config"))
        plug = os.path.join(conf_dir, "hamlet_plugins")
        for fn in sorted(os.listdir(plug)) if os.path.isdir(plug) else []:
            if fn.endswith(".py"):
                name = "hamlet_plugins" if fn == "__init__.py" else "hamlet_plugins." + fn[:-3]
                found.append((name, os.path.join(plug, fn), os.path.join("spil_hamlet_conf", "hamlet_plugins", fn), "config"))
        rd = find_resolva_dir()
        for fn in sorted(os.listdir(rd)):
            if fn.endswith(".py"):
                name = "resolva" if fn == "__init__.py" else "resolva." + fn[:-3]
                found.append((name, os.path.join(rd, fn), os.path.join("<resolva>", fn), "dep"))
        return found

    def _load(self):
        seen_overlay = set()
        for name, path, rel, kind in self._discover():
            if rel in self.overlay:
                src = self.overlay[rel]
                seen_overlay.add(rel)
            else:
                with open(path, encoding="utf-8") as f:
                    src = f.read()
            if rel in self.trees:
                tree = self.trees[rel]
            else:
                try:
                    tree = ast.parse(src, filename=rel)
                except SyntaxError as e:
                    raise AnalysisError(f"cannot parse {rel}: {e}")
            m = Module(name=name, path=path, relpath=rel, source=src, tree=tree, kind=kind)
            self.modules[name] = m
            self.by_relpath[rel] = m
        missing = set(self.overlay) - seen_overlay
        if missing:
            raise AnalysisError(f"overlay names files outside the analysed scope: {sorted(missing)}")

    def digest(self) -> str:
        h = hashlib.sha256()
        for name in sorted(self.modules):
            h.update(name.encode())
            h.update(self.modules[name].source.encode())
        return h.hexdigest()[:16]

    # ------------------------------------------------------------------ indexing
    def _index(self):
        for m in self.modules.values():
            self._index_module(m)
        for m in self.modules.values():
            for c in m.classes.values():
                c.base_names = [self._resolve_base(m, b) for b in c.node.bases]
        for m in self.modules.values():
            for f in list(m.functions.values()):
                self._resolve_decorators(f)

    def _index_module(self, m: Module):
        m.toplevel = flatten_toplevel(m.tree.body)
        for idx, st in enumerate(m.toplevel):
            if isinstance(st, ast.Import):
                for a in st.names:
                    if a.asname:
                        self._bind(m, Binding(a.asname, "module", idx, st, target_module=a.name))
                    else:
                        top = a.name.split(".")[0]
                        self._bind(m, Binding(top, "module", idx, st, target_module=top))
            elif isinstance(st, ast.ImportFrom):
                base = self._abs_from(m, st)
                for a in st.names:
                    if a.name == "*":
                        m.stars.append((idx, base))
                    else:
                        self._bind(m, Binding(a.asname or a.name, "from", idx, st, target_module=base, target_name=a.name))
            elif isinstance(st, ast.FunctionDef):
                self._bind(m, Binding(st.name, "func", idx, st))
            elif isinstance(st, ast.ClassDef):
                self._bind(m, Binding(st.name, "class", idx, st))
            elif isinstance(st, ast.Assign):
                for t in st.targets:
                    for n in _target_names(t):
                        self._bind(m, Binding(n, "assign", idx, st, value=st.value if isinstance(t, ast.Name) else None))
            elif isinstance(st, ast.AnnAssign) and isinstance(st.target, ast.Name):
                self._bind(m, Binding(st.target.id, "assign", idx, st, value=st.value))
            elif isinstance(st, ast.AugAssign) and isinstance(st.target, ast.Name):
                self._bind(m, Binding(st.target.id, "assign", idx, st, value=None))
            elif isinstance(st, ast.For):
                self._detect_loader(m, idx, st)
        # static __all__
        for b in m.bindings.get("__all__", []):
            if isinstance(b.value, (ast.List, ast.Tuple)) and b.value.elts and all(
                isinstance(e, ast.Constant) and isinstance(e.value, str) for e in b.value.elts
            ):
                m.static_all = [e.value for e in b.value.elts]
        # functions & classes (all nesting levels)
        self._collect_defs(m, m.tree.body, prefix="", cls=None, parent=None, main_guard_skip=True)

    def _bind(self, m: Module, b: Binding):
        m.bindings.setdefault(b.name, []).append(b)

    def _abs_from(self, m: Module, st: ast.ImportFrom) -> str:
        if not st.level:
            return st.module or ""
        pkg = m.name.split(".")
        if not m.path.endswith("__init__.py"):
            pkg = pkg[:-1]
        pkg = pkg[: len(pkg) - (st.level - 1)]
        return ".".join(pkg + ([st.module] if st.module else []))

    def _detect_loader(self, m: Module, idx: int, st: ast.For):
        """``for name, value in inspect.getmembers(M): ... globals()[name] = value`` where
        ``M = importlib.import_module('<const>')`` earlier at module level."""
        it = st.iter
        if not (isinstance(it, ast.Call) and _dotted(it.func) in ("inspect.getmembers", "getmembers") and it.args):
            return
        if not isinstance(it.args[0], ast.Name):
            return
        var = it.args[0].id
        copies = False
        for n in ast.walk(st):
            if isinstance(n, ast.Assign) and len(n.targets) == 1 and isinstance(n.targets[0], ast.Subscript):
                v = n.targets[0].value
                if isinstance(v, ast.Call) and _dotted(v.func) == "globals":
                    copies = True
        if not copies:
            return
        target = None
        for node in ast.walk(m.tree):
            if isinstance(node, ast.Assign) and any(isinstance(t, ast.Name) and t.id == var for t in node.targets):
                c = node.value
                if isinstance(c, ast.Call) and _dotted(c.func) in ("importlib.import_module", "import_module") and c.args:
                    a0 = c.args[0]
                    if isinstance(a0, ast.Constant) and isinstance(a0.value, str):
                        target = a0.value
        if target:
            m.loader = (idx, target)

    def _collect_defs(self, m: Module, body, prefix: str, cls, parent, main_guard_skip=False):
        for st in body:
            if main_guard_skip and _is_main_guard(st):
                continue
            if isinstance(st, ast.FunctionDef):
                short = prefix + st.name
                if any(_dotted(d) in ("overload", "typing.overload") for d in st.decorator_list):
                    continue  # typing stubs, the real definition follows
                fi = FunctionInfo(qualname=f"{m.name}.{short}", name=st.name, module=m, node=st, cls=cls, parent=parent)
                fi.decorator_nodes = list(st.decorator_list)
                m.functions[short] = fi
                self.functions[fi.qualname] = fi
                if cls is not None and parent is None:
                    cls.methods[st.name] = fi
                if parent is not None:
                    parent.nested[st.name] = fi
                self._collect_defs(m, st.body, prefix=short + ".<locals>.", cls=cls if parent is None and cls else None, parent=fi)
            elif isinstance(st, ast.ClassDef):
                short = prefix + st.name
                ci = ClassInfo(qualname=f"{m.name}.{short}", name=st.name, module=m, node=st)
                m.classes[short] = ci
                self.classes[ci.qualname] = ci
                for s2 in st.body:
                    if isinstance(s2, ast.Assign):
                        for t in s2.targets:
                            if isinstance(t, ast.Name):
                                ci.attrs[t.id] = s2.value
                    elif isinstance(s2, ast.AnnAssign) and isinstance(s2.target, ast.Name) and s2.value is not None:
                        ci.attrs[s2.target.id] = s2.value
                self._collect_defs(m, st.body, prefix=short + ".", cls=ci, parent=None)
            elif isinstance(st, (ast.If, ast.Try, ast.With, ast.For, ast.While)):
                for sub in _sub_bodies(st):
                    self._collect_defs(m, sub, prefix, cls, parent, main_guard_skip)

    def _resolve_base(self, m: Module, node: ast.AST) -> str:
        r = self.resolve_expr(m, node)
        if r.kind == "class":
            return r.cls.qualname
        return r.name or _dotted(node) or "?"

    def _resolve_decorators(self, f: FunctionInfo):
        for d in f.decorator_nodes:
            target = d.func if isinstance(d, ast.Call) else d
            name = _dotted(target)
            if name in ("property",):
                f.is_property = True
            if name and name.endswith(".setter"):
                continue
            if name in ("staticmethod",):
                f.is_static = True
            r = self.resolve_expr(f.module, target, scope=f.parent)
            if r.kind == "func":
                f.decorators.append(r.func.qualname)
            elif r.kind == "class":
                f.decorators.append(r.cls.qualname)
            elif r.name:
                f.decorators.append(r.name)
            elif name:
                f.decorators.append(name)

    # ------------------------------------------------------------------ name resolution
    def module_exports(self, m: Module) -> List[str]:
        """names exported by ``from m import *``"""
        if m.loader is not None and "__all__" in m.bindings:
            tgt = self.modules.get(m.loader[1])
            if tgt is not None:
                return [n for n in self.module_members(tgt) if not n.startswith("__")]
        if m.static_all is not None:
            return list(m.static_all)
        return [n for n in self.module_members(m) if not n.startswith("_")]

    def module_members(self, m: Module) -> List[str]:
        names = list(m.bindings.keys())
        for _, star in m.stars:
            sm = self.modules.get(star)
            if sm is not None:
                for n in self.module_exports(sm):
                    if n not in names:
                        names.append(n)
        if m.loader is not None:
            tgt = self.modules.get(m.loader[1])
            if tgt is not None:
                for n in self.module_members(tgt):
                    if not n.startswith("__") and n not in names:
                        names.append(n)
        return names

    def lookup(self, m: Module, name: str, _depth: int = 0) -> Resolved:
        """Resolve a module-level name of module ``m`` to what it denotes at the end of import."""
        key = (m.name, name)
        if key in self._resolve_cache:
            return self._resolve_cache[key]
        if _depth > 12:
            return Resolved("unknown", name=name)
        res = self._lookup(m, name, _depth)
        self._resolve_cache[key] = res
        return res

    def _lookup(self, m: Module, name: str, depth: int) -> Resolved:
        cands: List[Tuple[int, str, object]] = []  # (index, tag, payload)
        for b in m.bindings.get(name, []):
            cands.append((b.index, "binding", b))
        for idx, star in m.stars:
            sm = self.modules.get(star)
            if sm is not None and name in self.module_exports(sm):
                cands.append((idx, "star", sm))
        if m.loader is not None:
            tgt = self.modules.get(m.loader[1])
            if tgt is not None and not name.startswith("__") and name in self.module_members(tgt):
                cands.append((m.loader[0], "loader", tgt))
        if not cands:
            return Resolved("unknown", name=name)
        cands.sort(key=lambda c: c[0])
        idx, tag, payload = cands[-1]  # the last binding wins
        if tag in ("star", "loader"):
            return self.lookup(payload, name, depth + 1)
        b: Binding = payload
        if b.kind == "func":
            fi = m.functions.get(name)
            # several defs with the same name: the indexed one is the last non-overload def
            return Resolved("func", module=m, func=fi, binding=b) if fi else Resolved("unknown", name=name)
        if b.kind == "class":
            return Resolved("class", module=m, cls=m.classes.get(name), binding=b)
        if b.kind == "module":
            tm = self.modules.get(b.target_module)
            if tm is not None:
                return Resolved("module", module=tm, name=tm.name)
            return Resolved("external", name=b.target_module)
        if b.kind == "from":
            sub = f"{b.target_module}.{b.target_name}"
            if sub in self.modules:
                return Resolved("module", module=self.modules[sub], name=sub)
            tm = self.modules.get(b.target_module)
            if tm is not None:
                return self.lookup(tm, b.target_name, depth + 1)
            return Resolved("external", name=sub)
        # assignment: alias of another name?  (e.g. ``cache = lru_cache``)
        if isinstance(b.value, (ast.Name, ast.Attribute)):
            r = self.resolve_expr(m, b.value, _depth=depth + 1, _before=b.index)
            if r.kind in ("func", "class", "module", "external"):
                return r
        return Resolved("value", module=m, name=name, binding=b)

    def resolve_expr(self, m: Module, node: ast.AST, scope: Optional[FunctionInfo] = None, _depth: int = 0,
                     _before: Optional[int] = None) -> Resolved:
        """Resolve a Name / dotted Attribute expression evaluated in module ``m`` (optionally inside
        function ``scope`` whose local imports and nested defs are visible)."""
        if isinstance(node, ast.Name):
            if scope is not None:
                r = self._lookup_local(scope, node.id)
                if r is not None:
                    return r
            if node.id in m.bindings or any(True for _ in m.stars) or m.loader:
                r = self.lookup(m, node.id, _depth)
                if r.kind != "unknown":
                    return r
            import builtins

            if hasattr(builtins, node.id):
                return Resolved("external", name="builtins." + node.id)
            return Resolved("unknown", name=node.id)
        if isinstance(node, ast.Attribute):
            base = self.resolve_expr(m, node.value, scope, _depth)
            if base.kind == "module":
                sub = f"{base.module.name}.{node.attr}"
                if sub in self.modules:
                    # attribute may also be a plain name of the package module
                    r = self.lookup(base.module, node.attr, _depth + 1)
                    if r.kind != "unknown":
                        return r
                    return Resolved("module", module=self.modules[sub], name=sub)
                return self.lookup(base.module, node.attr, _depth + 1)
            if base.kind == "external":
                return Resolved("external", name=f"{base.name}.{node.attr}")
            if base.kind == "class":
                fi = self.find_method(base.cls, node.attr)
                if fi is not None:
                    return Resolved("func", module=fi.module, func=fi)
                return Resolved("unknown", name=f"{base.cls.qualname}.{node.attr}")
            return Resolved("unknown", name=_dotted(node))
        return Resolved("unknown")

    def _lookup_local(self, scope: FunctionInfo, name: str) -> Optional[Resolved]:
        f: Optional[FunctionInfo] = scope
        while f is not None:
            if name in f.nested:
                return Resolved("func", module=f.module, func=f.nested[name])
            if name in f.params:
                return Resolved("unknown", name=name)  # a parameter shadows module names
            for st in ast.walk(f.node):
                if isinstance(st, ast.ImportFrom):
                    for a in st.names:
                        if (a.asname or a.name) == name:
                            base = self._abs_from(f.module, st)
                            sub = f"{base}.{a.name}"
                            if sub in self.modules:
                                return Resolved("module", module=self.modules[sub], name=sub)
                            tm = self.modules.get(base)
                            if tm is not None:
                                return self.lookup(tm, a.name)
                            return Resolved("external", name=sub)
                elif isinstance(st, ast.Import):
                    for a in st.names:
                        if (a.asname or a.name.split(".")[0]) == name:
                            tgt = a.name if a.asname else a.name.split(".")[0]
                            tm = self.modules.get(tgt)
                            return Resolved("module", module=tm, name=tgt) if tm else Resolved("external", name=tgt)
            f = f.parent
        return None

    # ------------------------------------------------------------------ classes
    def mro(self, c: ClassInfo) -> List[ClassInfo]:
        out, seen = [], set()

        def visit(k: ClassInfo):
            if k.qualname in seen:
                return
            seen.add(k.qualname)
            out.append(k)
            for b in k.base_names:
                if b in self.classes:
                    visit(self.classes[b])

        visit(c)
        return out

    def find_method(self, c: ClassInfo, name: str) -> Optional[FunctionInfo]:
        for k in self.mro(c):
            if name in k.methods:
                return k.methods[name]
        return None

    def find_class_attr(self, c: ClassInfo, name: str) -> Optional[ast.AST]:
        for k in self.mro(c):
            if name in k.attrs:
                return k.attrs[name]
        return None

    def subclasses(self, c: ClassInfo) -> List[ClassInfo]:
        return [k for k in self.classes.values() if k is not c and c in self.mro(k)]

    def is_subclass(self, c: ClassInfo, base_qualname: str) -> bool:
        return any(k.qualname == base_qualname for k in self.mro(c))

    # ------------------------------------------------------------------ convenience
    def function(self, qualname: str) -> FunctionInfo:
        f = self.functions.get(qualname) or self.moved(qualname)
        if f is None:
            raise AnalysisError(f"anchor function not found: {qualname}")
        return f

    def moved(self, qualname: str) -> Optional[FunctionInfo]:
        """a module-level function that was moved to another module and is imported back under its old name
        (``from .new_home import f`` in the old module): the old qualified name still denotes it"""
        mod, _, name = qualname.rpartition(".")
        m = self.modules.get(mod)
        if m is None or name not in m.bindings:
            # Class.method: the class may have moved
            mod2, _, cname = mod.rpartition(".")
            m2 = self.modules.get(mod2)
            if m2 is not None and cname in m2.bindings:
                r = self.lookup(m2, cname)
                if r.kind == "class" and r.cls is not None:
                    return r.cls.methods.get(name)
            return None
        r = self.lookup(m, name)
        if r.kind == "func" and r.func is not None:
            return r.func
        return None

    def cls(self, qualname: str) -> ClassInfo:
        c = self.classes.get(qualname)
        if c is None:
            raise AnalysisError(f"anchor class not found: {qualname}")
        return c

    def module(self, name: str) -> Module:
        m = self.modules.get(name)
        if m is None:
            raise AnalysisError(f"anchor module not found: {name}")
        return m

    def iter_functions(self, kinds=("library", "config")) -> Iterator[FunctionInfo]:
        for q in sorted(self.functions):
            f = self.functions[q]
            if f.module.kind in kinds:
                yield f


# --------------------------------------------------------------------------------------------------
def _dotted(node: ast.AST) -> Optional[str]:
    if isinstance(node, ast.Name):
        return node.id
    if isinstance(node, ast.Attribute):
        b = _dotted(node.value)
        return f"{b}.{node.attr}" if b else None
    if isinstance(node, ast.Call):
        b = _dotted(node.func)
        return f"{b}()" if b else None
    return None


dotted = _dotted


def _target_names(t: ast.AST) -> List[str]:
    if isinstance(t, ast.Name):
        return [t.id]
    if isinstance(t, (ast.Tuple, ast.List)):
        out = []
        for e in t.elts:
            out.extend(_target_names(e))
        return out
    if isinstance(t, ast.Starred):
        return _target_names(t.value)
    return []


target_names = _target_names


def _sub_bodies(st: ast.stmt) -> List[List[ast.stmt]]:
    out = []
    for fld in ("body", "orelse", "finalbody"):
        v = getattr(st, fld, None)
        if v:
            out.append(v)
    for h in getattr(st, "handlers", []) or []:
        out.append(h.body)
    return out


sub_bodies = _sub_bodies


def own_nodes(fn_node: ast.AST) -> Iterator[ast.AST]:
    """All AST nodes of a function body, not descending into nested function / class definitions
    (lambdas and comprehensions are part of the function)."""
    stack = list(ast.iter_child_nodes(fn_node))
    while stack:
        n = stack.pop()
        if isinstance(n, (ast.FunctionDef, ast.AsyncFunctionDef, ast.ClassDef)):
            # decorators and defaults are evaluated in the enclosing scope
            for d in getattr(n, "decorator_list", []):
                stack.append(d)
            continue
        yield n
        stack.extend(ast.iter_child_nodes(n))


def norm(node: ast.AST) -> str:
    """Normalised source text of a node (ast.unparse): stable under reformatting and comments."""
    try:
        return ast.unparse(node)
    except Exception:  # pragma: no cover
        return ast.dump(node)
